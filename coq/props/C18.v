(* C18 -- bootstrap intervals are reproducible, ordered and shaped like the estimates.
   Only statements, `exact`, and Print Assumptions.  All definitions (populate_ci, calc_quantile1,
   np_quantile, np_nanquantile, qquantile, resample ...) are the ones of FL.Bootstrap that the
   correspondence run evaluates on the logged resamples.  The C18_source_* theorems tie those definitions to
   the source: FLGen.Gen_bootstrap.src is REGENERATED from /repo on every run by translators/t_bootstrap.py
   (frac / replace / axis of the sample call, the seed stream, np.quantile vs np.nanquantile, q as given, axis,
   default method, the dispatch, the union fold, n_boot / ci_quantiles as handed on by __init__, the eight
   caches and the accessors that read them). *)
From Coq Require Import QArith ZArith List Bool.
From FL Require Import Num ListX Flat Bootstrap Bootstrap_proofs BootstrapSrc BootstrapSrc_proofs.
From FLGen Require Gen_bootstrap.
Import ListNotations.
Open Scope Q_scope.

(* quantile_monotone: numpy's linear quantile is non-decreasing in q on every non-empty list *)
Theorem C18_quantile_monotone :
  forall (q q' : Q) (vs : list Q), vs <> [] -> q <= q' -> qquantile q vs <= qquantile q' vs.
Proof. exact qquantile_monotone. Qed.
Print Assumptions C18_quantile_monotone.

(* ci_shape: one entry per requested quantile ... *)
Theorem C18_ci_one_entry_per_quantile :
  forall qs ncols samples, length (calc_quantiles qs ncols samples) = length qs.
Proof. exact calc_quantiles_length. Qed.
Print Assumptions C18_ci_one_entry_per_quantile.

(* ... a Series (one cell per metric) when the per-resample results are Series ... *)
Theorem C18_ci_shape_series :
  forall ncols samples q, ~ is_frame_list samples ->
  exists s, calc_quantile1 ncols samples q = RS s /\ length s = ncols.
Proof. exact calc_quantile1_shape_series. Qed.
Print Assumptions C18_ci_shape_series.

(* ... and a DataFrame over the aligned index with one cell per metric when they are DataFrames *)
Theorem C18_ci_shape_frame :
  forall ncols samples q, is_frame_list samples ->
  exists f, calc_quantile1 ncols samples q = RF f /\
            map fst f = union_index (map as_frame samples) /\
            Forall (fun kr => length (snd kr) = ncols) f.
Proof. exact calc_quantile1_shape_frame. Qed.
Print Assumptions C18_ci_shape_frame.

(* the aligned index = the keys that occur in at least one resample's result *)
Theorem C18_aligned_index :
  forall fs k, In k (union_index fs) <-> exists f, In f fs /\ In k (map fst f).
Proof. exact union_index_spec. Qed.
Print Assumptions C18_aligned_index.

(* by_group_ci of the whole pipeline: entries, index, columns *)
Theorem C18_by_group_ci_shape :
  forall ms ncf nsf qs rows idxs, idxs <> [] ->
  let c := populate_ci ms ncf nsf qs rows idxs in
  length (ci_by_group c) = length qs /\
  forall r, In r (ci_by_group c) ->
    exists f, r = RF f /\
      (forall k, In k (map fst f) <->
         exists idx, In idx idxs /\ In k (map fst (d_by_group (create ms ncf nsf (resample rows idx))))) /\
      Forall (fun kr => length (snd kr) = length ms) f.
Proof. exact by_group_ci_shape. Qed.
Print Assumptions C18_by_group_ci_shape.

(* every key of by_group_ci's index is a key of the point estimate's by_group index
   (with C18_by_group_ci_shape: the point estimate's index restricted to what the resamples show) *)
Theorem C18_by_group_index_in_point :
  forall ms ncf nsf rows idx k, valid_resample (length rows) idx ->
  In k (map fst (d_by_group (create ms ncf nsf (resample rows idx)))) ->
  In k (map fst (d_by_group (point ms ncf nsf rows))).
Proof. exact by_group_index_in_point. Qed.
Print Assumptions C18_by_group_index_in_point.

(* _align_sample_indices (Bootstrap.align): every re-indexed frame has the common index and, at a
   key of that index, the row that the quantile computation (aligned_cell) uses *)
Theorem C18_align_lookup :
  forall ncols fs f k, In f fs -> In k (union_index fs) ->
  exists f', In f' (align ncols fs) /\ lookup_row ncols k f' = lookup_row ncols k f /\
             map fst f' = union_index fs.
Proof. exact align_lookup. Qed.
Print Assumptions C18_align_lookup.

(* entries are element-wise non-decreasing in the quantile: same index, NaN cells stay NaN,
   finite cells ordered (per-resample cells finite or NaN) *)
Theorem C18_ci_monotone :
  forall ncols samples q q', samples_no_inf samples = true -> q <= q' ->
  result_le (calc_quantile1 ncols samples q) (calc_quantile1 ncols samples q').
Proof. exact calc_quantile1_monotone. Qed.
Print Assumptions C18_ci_monotone.

(* the same for each of the eight cached interval lists of _populate_results_ci
   (t = 0..7: overall, by_group, group_min, group_max, difference, ratio, and the two to_overall) *)
Theorem C18_populate_ci_monotone :
  forall ms ncf nsf qs rows idxs t i i',
  (t < 8)%nat -> nth t (no_inf_flags ms ncf nsf rows idxs) false = true ->
  (i < length qs)%nat -> (i' < length qs)%nat -> nth i qs 0 <= nth i' qs 0 ->
  let l := nth t (all_lists (populate_ci ms ncf nsf qs rows idxs)) [] in
  result_le (nth i l (RS [])) (nth i' l (RS [])).
Proof. exact populate_ci_monotone. Qed.
Print Assumptions C18_populate_ci_monotone.

(* resample_size: a resample of n valid positions has n rows, all of them data rows, so count = n *)
Theorem C18_resample_size :
  forall rows idx, valid_resample (length rows) idx ->
  length (resample rows idx) = length rows /\ Forall (fun r => In r rows) (resample rows idx) /\
  m_count (resample rows idx) = Fin (inject_nat (length rows)).
Proof. exact resample_size. Qed.
Print Assumptions C18_resample_size.

(* ... hence the overall count is n at every requested quantile *)
Theorem C18_overall_count_ci :
  forall ms nsf qs rows idxs j n,
  idxs <> [] -> (j < length ms)%nat -> nth j ms (fun _ => NaN) = m_count ->
  Forall (valid_resample n) idxs ->
  forall r, In r (ci_overall (populate_ci ms 0 nsf qs rows idxs)) ->
  exists s, r = RS s /\ cell_is (inject_nat n) (nth j s NaN).
Proof. exact overall_count_ci. Qed.
Print Assumptions C18_overall_count_ci.

(* constant_metric: one cell; overall_ci of the pipeline for ANY metric function; aligned frames *)
Theorem C18_constant_quantile :
  forall q vs c, vs <> [] -> (forall v, In v vs -> v == c) -> qquantile q vs == c.
Proof. exact qquantile_constant. Qed.
Print Assumptions C18_constant_quantile.

Theorem C18_overall_ci_constant :
  forall ms nsf qs rows idxs j c,
  idxs <> [] -> (j < length ms)%nat ->
  (forall idx, In idx idxs -> cell_is c ((nth j ms (fun _ => NaN)) (resample rows idx))) ->
  forall r, In r (ci_overall (populate_ci ms 0 nsf qs rows idxs)) ->
  exists s, r = RS s /\ cell_is c (nth j s NaN).
Proof. exact overall_ci_constant. Qed.
Print Assumptions C18_overall_ci_constant.

Theorem C18_frame_ci_constant :
  forall ncols samples q j c,
  is_frame_list samples -> (j < ncols)%nat ->
  (forall r k, In r samples ->
     let x := nth j (lookup_row ncols k (as_frame r)) NaN in x = NaN \/ cell_is c x) ->
  exists f, calc_quantile1 ncols samples q = RF f /\
    forall k row, In (k, row) f ->
      let cell := aligned_cell ncols (map as_frame samples) k j in
      (Forall (fun x => x = NaN) cell /\ nth j row NaN = NaN) \/
      ((exists x, In x cell /\ cell_is c x) /\ cell_is c (nth j row NaN)).
Proof. exact calc_frame_constant. Qed.
Print Assumptions C18_frame_ci_constant.

(* quantile_brackets_mean: for m >= 2 values, q <= 1/(2(m-1)) and q' >= 1 - 1/(2(m-1))
   (written without division) enclose the mean ... *)
Theorem C18_quantile_brackets_mean :
  forall q q' vs, (2 <= length vs)%nat ->
  0 <= q -> q * (2 * inject_nat (length vs - 1)) <= 1 ->
  (1 - q') * (2 * inject_nat (length vs - 1)) <= 1 ->
  qquantile q vs <= qmean vs /\ qmean vs <= qquantile q' vs.
Proof. exact quantile_brackets_mean. Qed.
Print Assumptions C18_quantile_brackets_mean.

(* ... and the interval has positive width as soon as two values differ *)
Theorem C18_quantile_width_positive :
  forall q q' vs x y, (2 <= length vs)%nat -> In x vs -> In y vs -> x < y ->
  0 <= q -> q < q' ->
  q * (2 * inject_nat (length vs - 1)) <= 1 ->
  (1 - q') * (2 * inject_nat (length vs - 1)) <= 1 ->
  qquantile q vs < qquantile q' vs.
Proof. exact quantile_width_positive. Qed.
Print Assumptions C18_quantile_width_positive.

(* deterministic: trivial for the model (it is a function of the resample positions); that the
   implementation draws the same positions for the same integer seed is checked by the harness *)
Theorem C18_deterministic :
  forall ms ncf nsf qs rows idxs idxs', idxs = idxs' ->
  populate_ci ms ncf nsf qs rows idxs = populate_ci ms ncf nsf qs rows idxs'.
Proof. exact populate_ci_deterministic. Qed.
Print Assumptions C18_deterministic.

(* ------------------------------------------------------------------------------------------------ *)
(* tie to the source (regenerated fragment)                                                          *)
(* ------------------------------------------------------------------------------------------------ *)

(* the decisions read off the current source are the constants the model uses: frac = 1, replace = True,
   axis = 0, seed of the caller; `random_state is None`, default_rng() / default_rng(seed=random_state),
   integers(0, uint32 max, size=n_samples, uint32), n_samples iterations, rs[i]; np.quantile for Series and
   np.nanquantile (after alignment) for DataFrames with q as given, axis 0, default method; union fold;
   dispatch on the type of sample 0; n_samples = n_boot, ci_quantiles unchanged, data of the point estimate;
   the eight caches with their aggregates (errors="raise") and the accessors that return them *)
Theorem C18_source_tie : Gen_bootstrap.src = model_src.
Proof. reflexivity. Qed.
Print Assumptions C18_source_tie.

(* the meaning of the regenerated description (BootstrapSrc.populate_src: interpreter of the tags) is the
   model that all theorems above are about and that the correspondence run evaluates *)
Theorem C18_source_semantics :
  forall ms ncf nsf qs rows idxs,
  populate_src Gen_bootstrap.src ms ncf nsf qs rows idxs = populate_ci ms ncf nsf qs rows idxs.
Proof. exact populate_src_model. Qed.
Print Assumptions C18_source_semantics.

(* ... observable by observable: what accessor number t returns (0..7: overall_ci, by_group_ci, group_min_ci,
   group_max_ci, difference_ci(), ratio_ci(), difference_ci("to_overall"), ratio_ci("to_overall")) is entry t
   of the model's all_lists *)
Theorem C18_source_observables :
  forall ms ncf nsf qs rows idxs t, (t < 8)%nat ->
  observable_src Gen_bootstrap.src ms ncf nsf qs rows idxs
    (nth t [SOverall; SByGroup; SGroupMin; SGroupMax; SDifference Between; SRatio Between;
            SDifference ToOverall; SRatio ToOverall] SOverall) =
  nth t (all_lists (populate_ci ms ncf nsf qs rows idxs)) [].
Proof. exact observable_src_model. Qed.
Print Assumptions C18_source_observables.

(* the positions the source's sample call may return (rows, round(frac * n) of them, repetition allowed iff
   replace) are exactly the resamples the model quantifies over *)
Theorem C18_source_resample_spec :
  forall n idx, sample_spec (b_sample Gen_bootstrap.src) n idx <-> valid_resample n idx.
Proof. exact sample_spec_model. Qed.
Print Assumptions C18_source_resample_spec.

(* the seed stream of the source, for every generator (fresh: unseeded, a function of outside entropy;
   seeded: a function of the integer seed) and every sampler draw: an integer random_state fixes the
   resamples (nothing depends on the entropy), n_boot of them are generated, and resample i is drawn with
   seed number i of the stream (one seed per sample) *)
Theorem C18_source_seeded_positions :
  forall (seed entropy : Type) (fresh : draw_call -> entropy -> nat -> list seed)
         (seeded : draw_call -> Z -> nat -> list seed) (draw : seed -> nat -> list nat) (dflt : seed)
         (e e' : entropy) (z : Z) (nboot n : nat),
  let P := positions_src seed entropy fresh seeded draw dflt (b_stream Gen_bootstrap.src) in
  P e (RSInt z) nboot n = P e' (RSInt z) nboot n /\
  length (P e (RSInt z) nboot n) = nboot /\
  forall i, (i < nboot)%nat ->
    nth i (P e (RSInt z) nboot n) [] = draw (nth i (seeded model_draw z nboot) dflt) n.
Proof. exact positions_seeded. Qed.
Print Assumptions C18_source_seeded_positions.

(* if the sampler respects the source's sample call, every generated resample is a valid resample *)
Theorem C18_source_positions_valid :
  forall (seed entropy : Type) (fresh : draw_call -> entropy -> nat -> list seed)
         (seeded : draw_call -> Z -> nat -> list seed) (draw : seed -> nat -> list nat) (dflt : seed)
         (e : entropy) (z : Z) (nboot n : nat),
  (forall s, sample_spec (b_sample Gen_bootstrap.src) n (draw s n)) ->
  Forall (valid_resample n)
         (positions_src seed entropy fresh seeded draw dflt (b_stream Gen_bootstrap.src) e (RSInt z) nboot n).
Proof. exact positions_valid. Qed.
Print Assumptions C18_source_positions_valid.

(* reproducible: the same integer random_state gives the same eight interval lists *)
Theorem C18_source_same_seed_same_intervals :
  forall (seed entropy : Type) (fresh : draw_call -> entropy -> nat -> list seed)
         (seeded : draw_call -> Z -> nat -> list seed) (draw : seed -> nat -> list nat) (dflt : seed)
         ms ncf nsf qs rows (e e' : entropy) (z : Z) (nboot : nat),
  let P := positions_src seed entropy fresh seeded draw dflt (b_stream Gen_bootstrap.src) in
  populate_ci ms ncf nsf qs rows (P e (RSInt z) nboot (length rows)) =
  populate_ci ms ncf nsf qs rows (P e' (RSInt z) nboot (length rows)).
Proof. exact same_seed_same_intervals. Qed.
Print Assumptions C18_source_same_seed_same_intervals.

(* ------------------------------------------------------------------------------------------------ *)
(* extreme quantiles                                                                                  *)
(* ------------------------------------------------------------------------------------------------ *)

(* quantile_zero_is_min / quantile_one_is_max, for non-empty finite lists *)
Theorem C18_quantile_zero_is_min :
  forall vs : list Q, vs <> [] ->
  exists m, In m vs /\ (forall v, In v vs -> m <= v) /\ qquantile 0 vs == m.
Proof. exact qquantile_zero_is_min. Qed.
Print Assumptions C18_quantile_zero_is_min.

Theorem C18_quantile_one_is_max :
  forall vs : list Q, vs <> [] ->
  exists m, In m vs /\ (forall v, In v vs -> v <= m) /\ qquantile 1 vs == m.
Proof. exact qquantile_one_is_max. Qed.
Print Assumptions C18_quantile_one_is_max.

(* every quantile lies between them *)
Theorem C18_quantile_between_extremes :
  forall q (vs : list Q), vs <> [] -> qquantile 0 vs <= qquantile q vs /\ qquantile q vs <= qquantile 1 vs.
Proof. exact qquantile_between_extremes. Qed.
Print Assumptions C18_quantile_between_extremes.

(* ------------------------------------------------------------------------------------------------ *)
(* groups on which a metric is constant                                                               *)
(* ------------------------------------------------------------------------------------------------ *)

(* ci_brackets_point_for_constant_groups: if metric j takes the value c on every non-empty selection (with
   repetition) of the data rows of group k, then as soon as group k occurs in one of the valid resamples the
   cell (k, j) of EVERY entry of by_group_ci is c (resamples without the group contribute NaN, which
   nanquantile skips), and so is the cell of the point estimate: lower bound == point estimate == upper
   bound whatever the quantiles are, so every interval brackets the point estimate *)
Theorem C18_ci_brackets_point_for_constant_groups :
  forall (ms : list metric) ncf nsf qs rows idxs k j c,
  (j < length ms)%nat -> length k = (ncf + nsf)%nat ->
  constant_on_group ms full_key k j c rows ->
  Forall (valid_resample (length rows)) idxs ->
  (exists idx r, In idx idxs /\ In r (resample rows idx) /\ full_key r = k) ->
  (forall e, In e (ci_by_group (populate_ci ms ncf nsf qs rows idxs)) ->
     exists f row, e = RF f /\ assoc k f = Some row /\ cell_is c (nth j row NaN)) /\
  (exists row, assoc k (d_by_group (point ms ncf nsf rows)) = Some row /\ cell_is c (nth j row NaN)).
Proof. exact by_group_ci_constant_group. Qed.
Print Assumptions C18_ci_brackets_point_for_constant_groups.

(* the premise holds for the mean prediction of a group whose predictions are all c *)
Theorem C18_mean_constant_on_group :
  forall (ms : list metric) kf k j c rows,
  nth j ms (fun _ => NaN) = m_mean ->
  (forall r, In r rows -> kf r = k -> r_pred r == c) ->
  constant_on_group ms kf k j c rows.
Proof. exact mean_constant_on_group. Qed.
Print Assumptions C18_mean_constant_on_group.

(* non-vacuity: 3 rows in 2 groups, 3 valid resamples (group 1 is absent from the first one: NaN
   after alignment, skipped by nanquantile), mean prediction, quantiles 1/4 and 3/4 satisfy the
   bracket premises for m = 3 and give a strictly ordered pair *)
Example C18_example :
  let rows := mkrows [([], [0%Z], 0); ([], [0%Z], 1); ([], [1%Z], 3)] in
  let idxs := [[0; 1; 1]; [2; 0; 2]; [1; 2; 0]]%nat in
  Forall (valid_resample (length rows)) idxs /\
  no_inf_flags [m_mean] 0 1 rows idxs = repeat true 8 /\
  (* by_group_ci = [ {0: 1/4, 1: 3} ; {0: 7/12, 1: 3} ] in the wire format (fractions reduced) *)
  Flat.enc_list enc_result (ci_by_group (populate_ci [m_mean] 0 1 [1 # 4; 3 # 4] rows idxs)) =
    [2; 1; 2; 1; 0; 1; 0; 1; 4; 1; 1; 1; 0; 3; 1;
        1; 2; 1; 0; 1; 0; 7; 12; 1; 1; 1; 0; 3; 1]%Z /\
  (let vs := [2 # 3; 2; 4 # 3] in
   (1 # 4) * (2 * inject_nat (length vs - 1)) <= 1 /\ (1 - (3 # 4)) * (2 * inject_nat (length vs - 1)) <= 1 /\
   qquantile (1 # 4) vs < qquantile (3 # 4) vs).
Proof.
  cbv zeta. split; [| split; [| split]].
  - repeat constructor.
  - vm_compute. reflexivity.
  - vm_compute. reflexivity.
  - split; [| split]; vm_compute; reflexivity || (intro H; discriminate H).
Qed.

(* non-vacuity of the added theorems on the same data: the extreme quantiles of [2/3; 2; 4/3] are 2/3 and 2;
   group 1 (one row, prediction 3) satisfies the premises of C18_ci_brackets_point_for_constant_groups for
   the mean (it is absent from the first resample and present in the others); with a seed stream that
   counts up from the integer seed and a sampler that rotates the rows, the source's stream yields three
   valid resamples for seed 5 *)
Example C18_example_added :
  let rows := mkrows [([], [0%Z], 0); ([], [0%Z], 1); ([], [1%Z], 3)] in
  let idxs := [[0; 1; 1]; [2; 0; 2]; [1; 2; 0]]%nat in
  (qquantile 0 [2 # 3; 2; 4 # 3] == 2 # 3 /\ qquantile 1 [2 # 3; 2; 4 # 3] == 2) /\
  ((0 < length [m_mean])%nat /\ length [1%Z] = (0 + 1)%nat /\
   constant_on_group [m_mean] full_key [1%Z] 0 3 rows /\
   Forall (valid_resample (length rows)) idxs /\
   (exists idx r, In idx idxs /\ In r (resample rows idx) /\ full_key r = [1%Z])) /\
  (let seeded := fun (_ : draw_call) (z : Z) (k : nat) => map (fun i => (z + Z.of_nat i)%Z) (seq_nat 0 k) in
   let draw := fun (s : Z) (n : nat) => map (fun i => Nat.modulo (Z.to_nat s + i) n) (seq_nat 0 n) in
   let P := positions_src Z unit (fun _ _ _ => []) seeded draw 0%Z (b_stream Gen_bootstrap.src) in
   P tt (RSInt 5) 3%nat 3%nat = [[2; 0; 1]; [0; 1; 2]; [1; 2; 0]]%nat /\
   Forall (valid_resample 3) (P tt (RSInt 5) 3%nat 3%nat)).
Proof.
  cbv zeta. split; [| split].
  - split; vm_compute; reflexivity.
  - split; [repeat constructor |]. split; [reflexivity |]. split; [| split].
    + apply mean_constant_on_group; [reflexivity |].
      intros r Hr Hk. cbn in Hr. destruct Hr as [<- | [<- | [<- | []]]]; cbn in Hk; try discriminate Hk. reflexivity.
    + repeat constructor.
    + exists [2; 0; 2]%nat, (mkrow [] [1%Z] 3). split; [right; left; reflexivity |].
      split; [left; reflexivity | reflexivity].
  - split; [vm_compute; reflexivity |]. vm_compute. repeat constructor.
Qed.
