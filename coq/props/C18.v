(* C18 -- bootstrap intervals are reproducible, ordered and shaped like the estimates.
   Only statements, `exact`, and Print Assumptions.  All definitions (populate_ci, calc_quantile1,
   np_quantile, np_nanquantile, qquantile, resample ...) are the ones of FL.Bootstrap that the
   correspondence run evaluates on the logged resamples. *)
From Coq Require Import QArith ZArith List Bool.
From FL Require Import Num ListX Flat Bootstrap Bootstrap_proofs.
Import ListNotations.
Open Scope Q_scope.

(* quantile_monotone: numpy's linear quantile is non-decreasing in q on every non-empty list *)
Theorem C18_quantile_monotone :
  forall (q q' : Q) (vs : list Q), vs <> [] -> q <= q' -> qquantile q vs <= qquantile q' vs.
Proof. exact qquantile_monotone. Qed.
Print Assumptions C18_quantile_monotone.

(* ci_shape: one entry per requested quantile ... *)
Theorem C18_ci_one_entry_per_quantile :
  forall qs ncols samples, length (calc_quantiles qs ncols samples) = length qs.
Proof. exact calc_quantiles_length. Qed.
Print Assumptions C18_ci_one_entry_per_quantile.

(* ... a Series (one cell per metric) when the per-resample results are Series ... *)
Theorem C18_ci_shape_series :
  forall ncols samples q, ~ is_frame_list samples ->
  exists s, calc_quantile1 ncols samples q = RS s /\ length s = ncols.
Proof. exact calc_quantile1_shape_series. Qed.
Print Assumptions C18_ci_shape_series.

(* ... and a DataFrame over the aligned index with one cell per metric when they are DataFrames *)
Theorem C18_ci_shape_frame :
  forall ncols samples q, is_frame_list samples ->
  exists f, calc_quantile1 ncols samples q = RF f /\
            map fst f = union_index (map as_frame samples) /\
            Forall (fun kr => length (snd kr) = ncols) f.
Proof. exact calc_quantile1_shape_frame. Qed.
Print Assumptions C18_ci_shape_frame.

(* the aligned index = the keys that occur in at least one resample's result *)
Theorem C18_aligned_index :
  forall fs k, In k (union_index fs) <-> exists f, In f fs /\ In k (map fst f).
Proof. exact union_index_spec. Qed.
Print Assumptions C18_aligned_index.

(* by_group_ci of the whole pipeline: entries, index, columns *)
Theorem C18_by_group_ci_shape :
  forall ms ncf nsf qs rows idxs, idxs <> [] ->
  let c := populate_ci ms ncf nsf qs rows idxs in
  length (ci_by_group c) = length qs /\
  forall r, In r (ci_by_group c) ->
    exists f, r = RF f /\
      (forall k, In k (map fst f) <->
         exists idx, In idx idxs /\ In k (map fst (d_by_group (create ms ncf nsf (resample rows idx))))) /\
      Forall (fun kr => length (snd kr) = length ms) f.
Proof. exact by_group_ci_shape. Qed.
Print Assumptions C18_by_group_ci_shape.

(* every key of by_group_ci's index is a key of the point estimate's by_group index
   (with C18_by_group_ci_shape: the point estimate's index restricted to what the resamples show) *)
Theorem C18_by_group_index_in_point :
  forall ms ncf nsf rows idx k, valid_resample (length rows) idx ->
  In k (map fst (d_by_group (create ms ncf nsf (resample rows idx)))) ->
  In k (map fst (d_by_group (point ms ncf nsf rows))).
Proof. exact by_group_index_in_point. Qed.
Print Assumptions C18_by_group_index_in_point.

(* _align_sample_indices (Bootstrap.align): every re-indexed frame has the common index and, at a
   key of that index, the row that the quantile computation (aligned_cell) uses *)
Theorem C18_align_lookup :
  forall ncols fs f k, In f fs -> In k (union_index fs) ->
  exists f', In f' (align ncols fs) /\ lookup_row ncols k f' = lookup_row ncols k f /\
             map fst f' = union_index fs.
Proof. exact align_lookup. Qed.
Print Assumptions C18_align_lookup.

(* entries are element-wise non-decreasing in the quantile: same index, NaN cells stay NaN,
   finite cells ordered (per-resample cells finite or NaN) *)
Theorem C18_ci_monotone :
  forall ncols samples q q', samples_no_inf samples = true -> q <= q' ->
  result_le (calc_quantile1 ncols samples q) (calc_quantile1 ncols samples q').
Proof. exact calc_quantile1_monotone. Qed.
Print Assumptions C18_ci_monotone.

(* the same for each of the eight cached interval lists of _populate_results_ci
   (t = 0..7: overall, by_group, group_min, group_max, difference, ratio, and the two to_overall) *)
Theorem C18_populate_ci_monotone :
  forall ms ncf nsf qs rows idxs t i i',
  (t < 8)%nat -> nth t (no_inf_flags ms ncf nsf rows idxs) false = true ->
  (i < length qs)%nat -> (i' < length qs)%nat -> nth i qs 0 <= nth i' qs 0 ->
  let l := nth t (all_lists (populate_ci ms ncf nsf qs rows idxs)) [] in
  result_le (nth i l (RS [])) (nth i' l (RS [])).
Proof. exact populate_ci_monotone. Qed.
Print Assumptions C18_populate_ci_monotone.

(* resample_size: a resample of n valid positions has n rows, all of them data rows, so count = n *)
Theorem C18_resample_size :
  forall rows idx, valid_resample (length rows) idx ->
  length (resample rows idx) = length rows /\ Forall (fun r => In r rows) (resample rows idx) /\
  m_count (resample rows idx) = Fin (inject_nat (length rows)).
Proof. exact resample_size. Qed.
Print Assumptions C18_resample_size.

(* ... hence the overall count is n at every requested quantile *)
Theorem C18_overall_count_ci :
  forall ms nsf qs rows idxs j n,
  idxs <> [] -> (j < length ms)%nat -> nth j ms (fun _ => NaN) = m_count ->
  Forall (valid_resample n) idxs ->
  forall r, In r (ci_overall (populate_ci ms 0 nsf qs rows idxs)) ->
  exists s, r = RS s /\ cell_is (inject_nat n) (nth j s NaN).
Proof. exact overall_count_ci. Qed.
Print Assumptions C18_overall_count_ci.

(* constant_metric: one cell; overall_ci of the pipeline for ANY metric function; aligned frames *)
Theorem C18_constant_quantile :
  forall q vs c, vs <> [] -> (forall v, In v vs -> v == c) -> qquantile q vs == c.
Proof. exact qquantile_constant. Qed.
Print Assumptions C18_constant_quantile.

Theorem C18_overall_ci_constant :
  forall ms nsf qs rows idxs j c,
  idxs <> [] -> (j < length ms)%nat ->
  (forall idx, In idx idxs -> cell_is c ((nth j ms (fun _ => NaN)) (resample rows idx))) ->
  forall r, In r (ci_overall (populate_ci ms 0 nsf qs rows idxs)) ->
  exists s, r = RS s /\ cell_is c (nth j s NaN).
Proof. exact overall_ci_constant. Qed.
Print Assumptions C18_overall_ci_constant.

Theorem C18_frame_ci_constant :
  forall ncols samples q j c,
  is_frame_list samples -> (j < ncols)%nat ->
  (forall r k, In r samples ->
     let x := nth j (lookup_row ncols k (as_frame r)) NaN in x = NaN \/ cell_is c x) ->
  exists f, calc_quantile1 ncols samples q = RF f /\
    forall k row, In (k, row) f ->
      let cell := aligned_cell ncols (map as_frame samples) k j in
      (Forall (fun x => x = NaN) cell /\ nth j row NaN = NaN) \/
      ((exists x, In x cell /\ cell_is c x) /\ cell_is c (nth j row NaN)).
Proof. exact calc_frame_constant. Qed.
Print Assumptions C18_frame_ci_constant.

(* quantile_brackets_mean: for m >= 2 values, q <= 1/(2(m-1)) and q' >= 1 - 1/(2(m-1))
   (written without division) enclose the mean ... *)
Theorem C18_quantile_brackets_mean :
  forall q q' vs, (2 <= length vs)%nat ->
  0 <= q -> q * (2 * inject_nat (length vs - 1)) <= 1 ->
  (1 - q') * (2 * inject_nat (length vs - 1)) <= 1 ->
  qquantile q vs <= qmean vs /\ qmean vs <= qquantile q' vs.
Proof. exact quantile_brackets_mean. Qed.
Print Assumptions C18_quantile_brackets_mean.

(* ... and the interval has positive width as soon as two values differ *)
Theorem C18_quantile_width_positive :
  forall q q' vs x y, (2 <= length vs)%nat -> In x vs -> In y vs -> x < y ->
  0 <= q -> q < q' ->
  q * (2 * inject_nat (length vs - 1)) <= 1 ->
  (1 - q') * (2 * inject_nat (length vs - 1)) <= 1 ->
  qquantile q vs < qquantile q' vs.
Proof. exact quantile_width_positive. Qed.
Print Assumptions C18_quantile_width_positive.

(* deterministic: trivial for the model (it is a function of the resample positions); that the
   implementation draws the same positions for the same integer seed is checked by the harness *)
Theorem C18_deterministic :
  forall ms ncf nsf qs rows idxs idxs', idxs = idxs' ->
  populate_ci ms ncf nsf qs rows idxs = populate_ci ms ncf nsf qs rows idxs'.
Proof. exact populate_ci_deterministic. Qed.
Print Assumptions C18_deterministic.

(* non-vacuity: 3 rows in 2 groups, 3 valid resamples (group 1 is absent from the first one: NaN
   after alignment, skipped by nanquantile), mean prediction, quantiles 1/4 and 3/4 satisfy the
   bracket premises for m = 3 and give a strictly ordered pair *)
Example C18_example :
  let rows := mkrows [([], [0%Z], 0); ([], [0%Z], 1); ([], [1%Z], 3)] in
  let idxs := [[0; 1; 1]; [2; 0; 2]; [1; 2; 0]]%nat in
  Forall (valid_resample (length rows)) idxs /\
  no_inf_flags [m_mean] 0 1 rows idxs = repeat true 8 /\
  (* by_group_ci = [ {0: 1/4, 1: 3} ; {0: 7/12, 1: 3} ] in the wire format (fractions reduced) *)
  Flat.enc_list enc_result (ci_by_group (populate_ci [m_mean] 0 1 [1 # 4; 3 # 4] rows idxs)) =
    [2; 1; 2; 1; 0; 1; 0; 1; 4; 1; 1; 1; 0; 3; 1;
        1; 2; 1; 0; 1; 0; 7; 12; 1; 1; 1; 0; 3; 1]%Z /\
  (let vs := [2 # 3; 2; 4 # 3] in
   (1 # 4) * (2 * inject_nat (length vs - 1)) <= 1 /\ (1 - (3 # 4)) * (2 * inject_nat (length vs - 1)) <= 1 /\
   qquantile (1 # 4) vs < qquantile (3 # 4) vs).
Proof.
  cbv zeta. split; [| split; [| split]].
  - repeat constructor.
  - vm_compute. reflexivity.
  - vm_compute. reflexivity.
  - split; [| split]; vm_compute; reflexivity || (intro H; discriminate H).
Qed.
