(* C16 -- adversarial training applies the documented projected-gradient update.
   Only statements, `exact`, and Print Assumptions.  The engine theorems are about the terms
   REGENERATED from /repo on every run (FLGen.Gen_adv.torch_term / tf_term / *_adv_term: the
   normalise / project / combine statements of train_step of the PyTorch and the TensorFlow engine).
   Tensors are matrices over Q of ANY shape; `meq` is entry-wise ==; `eval s tiny alpha gP gA t`
   is the value of the engine term t when dW_LP[i] = gP, dW_LA[i] = gA, self.base.alpha = alpha,
   torch.norm(dW_LA[i]) = s and finfo(dtype).tiny = tiny. *)
From Coq Require Import QArith List.
From FL Require Import Num AdvUpdate AdvUpdate_proofs.
From FLGen Require Gen_adv.
Import ListNotations.
Open Scope Q_scope.

(* the documented direction + alpha*dLA/dW is orthogonal to dLA/dW: every shape, every alpha *)
Theorem C16_update_orthogonal :
  forall (gP gA : mat) (alpha : Q), same_shape gP gA -> ~ frob gA gA == 0 ->
  frob (madd (combine gP gA alpha) (mscale alpha gA)) gA == 0.
Proof. exact update_orthogonal. Qed.
Print Assumptions C16_update_orthogonal.

(* with the exact Euclidean norm s of dLA/dW (tiny neglected) the PyTorch statements compute `combine` *)
Theorem C16_torch_eval_is_combine :
  forall (s alpha : Q) (gP gA : mat), s * s == frob gA gA -> ~ s == 0 ->
  exists M, eval s 0 alpha gP gA Gen_adv.torch_term = Some M /\ meq M (combine gP gA alpha).
Proof. exact (eval_is_combine_torch false). Qed.
Print Assumptions C16_torch_eval_is_combine.

Theorem C16_tf_eval_is_combine :
  forall (s alpha : Q) (gP gA : mat), s * s == frob gA gA -> ~ s == 0 ->
  exists M, eval s 0 alpha gP gA Gen_adv.tf_term = Some M /\ meq M (combine gP gA alpha).
Proof. exact (eval_is_combine_tf false). Qed.
Print Assumptions C16_tf_eval_is_combine.

(* no assumption on s (so also for norms that are not rational, and with the tiny the code adds):
   the statements compute gP - (<gA,gP> / n2) gA - alpha gA with n2 = (s + tiny)^2 *)
Theorem C16_torch_eval_general :
  forall (s tiny alpha : Q) (gP gA : mat), ~ s + tiny == 0 ->
  exists M, eval s tiny alpha gP gA Gen_adv.torch_term = Some M /\
            meq M (combine_n2 gP gA alpha ((s + tiny) * (s + tiny))).
Proof. exact (fun s tiny alpha gP gA => eval_general_torch s tiny alpha gP gA false). Qed.
Print Assumptions C16_torch_eval_general.

Theorem C16_tf_eval_general :
  forall (s tiny alpha : Q) (gP gA : mat), ~ s + tiny == 0 ->
  exists M, eval s tiny alpha gP gA Gen_adv.tf_term = Some M /\
            meq M (combine_n2 gP gA alpha ((s + tiny) * (s + tiny))).
Proof. exact (fun s tiny alpha gP gA => eval_general_tf s tiny alpha gP gA false). Qed.
Print Assumptions C16_tf_eval_general.

(* what the engines write into the predictor's gradient, plus alpha*dLA/dW, is orthogonal to dLA/dW *)
Theorem C16_torch_update_orthogonal :
  forall (s alpha : Q) (gP gA : mat), same_shape gP gA -> s * s == frob gA gA -> ~ s == 0 ->
  exists M, eval s 0 alpha gP gA Gen_adv.torch_term = Some M /\
            frob (madd M (mscale alpha gA)) gA == 0.
Proof. exact (engine_update_orthogonal_torch false). Qed.
Print Assumptions C16_torch_update_orthogonal.

Theorem C16_tf_update_orthogonal :
  forall (s alpha : Q) (gP gA : mat), same_shape gP gA -> s * s == frob gA gA -> ~ s == 0 ->
  exists M, eval s 0 alpha gP gA Gen_adv.tf_term = Some M /\
            frob (madd M (mscale alpha gA)) gA == 0.
Proof. exact (engine_update_orthogonal_tf false). Qed.
Print Assumptions C16_tf_update_orthogonal.

(* all-zero adversary gradient (norm 0, division by the non-zero tiny): the direction is dLP/dW *)
Theorem C16_torch_zero_adversary_gradient :
  forall (tiny alpha : Q) (gP gA : mat), ~ tiny == 0 -> same_shape gP gA -> mzero gA ->
  exists M, eval 0 tiny alpha gP gA Gen_adv.torch_term = Some M /\ meq M gP.
Proof. exact zero_adversary_gradient_torch. Qed.
Print Assumptions C16_torch_zero_adversary_gradient.

Theorem C16_tf_zero_adversary_gradient :
  forall (tiny alpha : Q) (gP gA : mat), ~ tiny == 0 -> same_shape gP gA -> mzero gA ->
  exists M, eval 0 tiny alpha gP gA Gen_adv.tf_term = Some M /\ meq M gP.
Proof. exact zero_adversary_gradient_tf. Qed.
Print Assumptions C16_tf_zero_adversary_gradient.

(* the adversary's tensors keep the plain gradient of LA and SGD moves them by -lr * dLA/dU *)
Theorem C16_torch_adversary_plain :
  forall (s tiny alpha lr : Q) (gP gU U : mat),
  eval s tiny alpha gP gU Gen_adv.torch_adv_term = Some gU /\
  sgd U gU lr = mmap2 (fun u g => u - lr * g) U gU.
Proof. exact adversary_plain. Qed.
Print Assumptions C16_torch_adversary_plain.

Theorem C16_tf_adversary_plain :
  forall (s tiny alpha lr : Q) (gP gU U : mat),
  eval s tiny alpha gP gU Gen_adv.tf_adv_term = Some gU /\
  sgd U gU lr = mmap2 (fun u g => u - lr * g) U gU.
Proof. exact adversary_plain. Qed.
Print Assumptions C16_tf_adversary_plain.

(* the statements distinguish the defect repaired in /repo commit b4dd69e: on a 2x2 tensor the
   all-pairs inner sum torch.sum(torch.inner(A, B)) is not <A, B> and the old term leaves a residual *)
Theorem C16_allpairs_differs :
  let gP := [[1; 0]; [0; 0]] in let gA := [[1; 1]; [1; 1]] in
  2 * 2 == frob gA gA /\ same_shape gP gA /\
  ~ allpairs gA gP == frob gA gP /\
  exists M, eval 2 0 1 gP gA (old_torch_term false) = Some M /\ ~ orth_residual M gA 1 == 0.
Proof. exact allpairs_differs. Qed.
Print Assumptions C16_allpairs_differs.

(* ... and the one repaired in commit ed4d625: a tiny of a wider dtype vanishes next to the norm, so an
   all-zero adversary gradient has no value (NaN); with the tensor's own tiny the value is dLP/dW *)
Theorem C16_wide_tiny_nan :
  let gP := [[1; 2]; [3; 4]] in let gA := [[0; 0]; [0; 0]] in
  eval 0 (1 # 1024) 1 gP gA (std_torch_term true) = None /\
  exists M, eval 0 (1 # 1024) 1 gP gA (std_torch_term false) = Some M /\ meq M gP.
Proof. exact wide_tiny_nan. Qed.
Print Assumptions C16_wide_tiny_nan.

(* non-vacuity: the premises of the engine theorems are satisfiable on a 2x3 tensor with two rows,
   non-zero adversary gradient and rational norm 5; the generated torch term then has the value below *)
Example C16_example :
  let gP := [[1; 2; 0]; [0; 1; 1]] in let gA := [[3; 0; 0]; [0; 4; 0]] in
  5 * 5 == frob gA gA /\ ~ 5 == 0 /\ same_shape gP gA /\ ~ frob gA gA == 0 /\
  exists M, eval 5 0 (1 # 2) gP gA Gen_adv.torch_term = Some M /\
            meq M [[(-67) # 50; 2; 0]; [0; (-53) # 25; 1]].
Proof.
  cbv zeta. split; [vm_compute; reflexivity|]. split; [intro H; vm_compute in H; discriminate|].
  split; [repeat constructor|]. split; [intro H; vm_compute in H; discriminate|].
  eexists. split; [vm_compute; reflexivity|]. repeat constructor; vm_compute; reflexivity.
Qed.
