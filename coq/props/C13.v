(* C13 -- several sensitive / control columns group rows by tuple equality, collision-free.
   Only statements, `exact`, and Print Assumptions.  The theorems are about the escape chain
   and separator REGENERATED from /repo (FLGen.Gen_merge) on every run; `eq_refl` below is a
   proof of `chain_ok Gen_merge.steps Gen_merge.sep = true`, i.e. the kernel checks by computation
   that the regenerated chain is [(e,[e;e]); (s,[e;s])] with separator [s] and e <> s (for the
   current source e = backslash, s = comma; any other pair of distinct characters also passes). *)
From Coq Require Import ZArith List.
From FL Require Import Merge Merge_proofs MergeGen.
From FLGen Require Gen_merge.
Import ListNotations.

(* the merge of the current source, applied to one row of stringified values *)
Definition merge_src : list str -> str := merge_with Gen_merge.steps Gen_merge.sep.

Theorem C13_merge_injective :
  forall r r' : list str, r <> [] -> r' <> [] -> merge_src r = merge_src r' -> r = r'.
Proof. exact (merge_injective_of_chain_ok Gen_merge.steps Gen_merge.sep eq_refl). Qed.
Print Assumptions C13_merge_injective.

(* the decoder is parametrised by the escape character and the separator of the source *)
Theorem C13_merge_decodable :
  forall r : list str, r <> [] ->
  unmergep (chain_esc Gen_merge.steps) (chain_sep Gen_merge.sep) (merge_src r) = r.
Proof. exact (unmerge_of_chain_ok Gen_merge.steps Gen_merge.sep eq_refl). Qed.
Print Assumptions C13_merge_decodable.

(* rows fall in the same merged group iff they agree in every column: the partition induced by
   the merged column IS the partition by tuple equality (what MetricFrame's group-by uses);
   the same function is applied at fit and at predict time, so equal tuples get equal keys. *)
Theorem C13_merge_partition :
  forall rows : list (list str), (forall r, In r rows -> r <> []) ->
  partition_ids str_eqb (map merge_src rows) = partition_ids row_eqb rows.
Proof. exact (partition_of_chain_ok Gen_merge.steps Gen_merge.sep eq_refl). Qed.
Print Assumptions C13_merge_partition.

(* non-vacuity: premises are satisfiable on values containing separator, backslash, empty string *)
Example C13_example :
  let r := [[97; 44]; [92]; []] in r <> [] /\
  unmergep (chain_esc Gen_merge.steps) (chain_sep Gen_merge.sep) (merge_src r) = r.
Proof. split; [discriminate | vm_compute; reflexivity]. Qed.
