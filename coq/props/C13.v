(* C13 -- several sensitive / control columns group rows by tuple equality, collision-free.
   Only statements, `exact`, and Print Assumptions.  The theorems are about the escape chain
   and separator REGENERATED from /repo (FLGen.Gen_merge) on every run; `eq_refl` below is a
   proof of `chain_ok Gen_merge.steps Gen_merge.sep = true`, i.e. the kernel checks by computation
   that the regenerated chain is [(e,[e;e]); (s,[e;s])] with separator [s] and e <> s (for the
   current source e = backslash, s = comma; any other pair of distinct characters also passes). *)
From Coq Require Import ZArith List.
From FL Require Import Merge Merge_proofs MergeGen MergeSrc MergeSrc_proofs MergeNecessity.
From FLGen Require Gen_merge.
Import ListNotations.

(* the merge of the current source, applied to one row of stringified values *)
Definition merge_src : list str -> str := merge_with Gen_merge.steps Gen_merge.sep.

Theorem C13_merge_injective :
  forall r r' : list str, r <> [] -> r' <> [] -> merge_src r = merge_src r' -> r = r'.
Proof. exact (merge_injective_of_chain_ok Gen_merge.steps Gen_merge.sep eq_refl). Qed.
Print Assumptions C13_merge_injective.

(* the decoder is parametrised by the escape character and the separator of the source *)
Theorem C13_merge_decodable :
  forall r : list str, r <> [] ->
  unmergep (chain_esc Gen_merge.steps) (chain_sep Gen_merge.sep) (merge_src r) = r.
Proof. exact (unmerge_of_chain_ok Gen_merge.steps Gen_merge.sep eq_refl). Qed.
Print Assumptions C13_merge_decodable.

(* rows fall in the same merged group iff they agree in every column: the partition induced by
   the merged column IS the partition by tuple equality (what MetricFrame's group-by uses);
   the same function is applied at fit and at predict time, so equal tuples get equal keys. *)
Theorem C13_merge_partition :
  forall rows : list (list str), (forall r, In r rows -> r <> []) ->
  partition_ids str_eqb (map merge_src rows) = partition_ids row_eqb rows.
Proof. exact (partition_of_chain_ok Gen_merge.steps Gen_merge.sep eq_refl). Qed.
Print Assumptions C13_merge_partition.

(* ---- WHERE the merge is applied (regenerated from _validate_and_reformat_input, _merge_columns,
   ThresholdOptimizer and InterpolatedThresholder on every run) ----
   Both feature blocks are: kwargs.get -> check_consistent_length -> check_array(ensure_2d=False, dtype=None)
   -> `if len(v.shape) > 1 and v.shape[1] > 1: v = _merge_columns(v)` on that same checked array
   -> pd.Series(v.squeeze()); _merge_columns iterates feature_columns.astype(str) directly and applies
   _join_names to every row (one key per row, nothing in between); fit and predict both take the key
   vector from slot 2 of _validate_and_reformat_input(..., sensitive_features=<their own argument>). *)
Theorem C13_merge_call_sites :
  Gen_merge.sensitive_block = expected_sensitive_block /\
  Gen_merge.control_block = expected_control_block /\
  Gen_merge.merge_pipeline = expected_pipeline /\
  Gen_merge.fit_path = expected_fit_path /\
  Gen_merge.predict_path = expected_predict_path.
Proof. exact (conj eq_refl (conj eq_refl (conj eq_refl (conj eq_refl eq_refl)))). Qed.
Print Assumptions C13_merge_call_sites.

(* the column a regenerated block produces for a table of stringified values *)
Definition sensitive_column_src : list (list str) -> option (list str) :=
  column_of Gen_merge.sensitive_block merge_src.
Definition control_column_src : list (list str) -> option (list str) :=
  column_of Gen_merge.control_block merge_src.

(* fit and predict obtain the key vector from the same function, the same keyword and the same slot,
   and that slot is the one the sensitive block returns; hence, for a fit-time table `tab` and a
   predict-time table `tab'` with several columns, the key computed for row i at predict time equals
   the key stored for row j at fit time iff the two rows are the same tuple of strings. *)
Theorem C13_fit_predict_same_key :
  p_source Gen_merge.predict_path = p_source Gen_merge.fit_path /\
  forall (tab tab' : list (list str)) (col col' : list str),
    (1 < ncols tab)%nat -> (1 < ncols tab')%nat ->
    (forall r, In r tab -> r <> []) -> (forall r, In r tab' -> r <> []) ->
    sensitive_column_src tab = Some col -> sensitive_column_src tab' = Some col' ->
    length col = length tab /\ length col' = length tab' /\
    forall i j, (i < length tab')%nat -> (j < length tab)%nat ->
      (nth i col' [] = nth j col [] <-> nth i tab' [] = nth j tab []).
Proof.
  exact (fit_predict_same_key Gen_merge.fit_path Gen_merge.predict_path Gen_merge.sensitive_block
           Gen_merge.steps Gen_merge.sep eq_refl eq_refl eq_refl eq_refl eq_refl eq_refl).
Qed.
Print Assumptions C13_fit_predict_same_key.

(* both blocks: the produced column partitions the rows of a multi-column table by tuple equality *)
Theorem C13_sensitive_block_partition :
  forall (tab : list (list str)) (col : list str),
    (1 < ncols tab)%nat -> (forall r, In r tab -> r <> []) ->
    sensitive_column_src tab = Some col -> partition_ids str_eqb col = partition_ids row_eqb tab.
Proof. exact (block_partition Gen_merge.sensitive_block Gen_merge.steps Gen_merge.sep eq_refl eq_refl eq_refl). Qed.
Print Assumptions C13_sensitive_block_partition.

Theorem C13_control_block_partition :
  forall (tab : list (list str)) (col : list str),
    (1 < ncols tab)%nat -> (forall r, In r tab -> r <> []) ->
    control_column_src tab = Some col -> partition_ids str_eqb col = partition_ids row_eqb tab.
Proof. exact (block_partition Gen_merge.control_block Gen_merge.steps Gen_merge.sep eq_refl eq_refl eq_refl). Qed.
Print Assumptions C13_control_block_partition.

(* ---- NECESSITY: every ingredient of the chain is needed, for every pair of distinct characters
   (e = escape, s = separator).  A chain that escapes nothing, only one of the two characters, both in
   the other order, or the separator by something other than the escape character, sends two different
   non-empty rows to the same key (collide = both rows non-empty, different, same merged string); and
   chain_ok, the test the theorems above rest on, rejects each of them.  So C13_merge_injective is not
   true "for the wrong reason" (an over-permissive acceptance test), and these rows are the replays
   offered when a changed source regenerates one of these chains. *)
Theorem C13_chain_steps_necessary :
  forall e s : Z, e <> s ->
    collide [] [s] [[s]] [[]; []] /\
    collide [(s, [e; s])] [s] [[e]; []] [[s]] /\
    collide [(e, [e; e])] [s] [[s]] [[]; []] /\
    collide [(s, [e; s]); (e, [e; e])] [s] [[s]] [[e]; []] /\
    collide [(e, [e; e]); (s, [s; s])] [s] [[s]] [[]; []; []].
Proof.
  exact (fun e s H => conj (no_escape_collides s) (conj (sep_only_collides e s H) (conj (esc_only_collides e s H)
           (conj (wrong_order_collides e s H) (doubled_sep_collides e s H))))).
Qed.
Print Assumptions C13_chain_steps_necessary.

Theorem C13_defective_chains_rejected :
  forall e s : Z, e <> s ->
  chain_ok [] [s] = false /\ chain_ok [(s, [e; s])] [s] = false /\ chain_ok [(e, [e; e])] [s] = false /\
  chain_ok [(s, [e; s]); (e, [e; e])] [s] = false /\ chain_ok [(e, [e; e]); (s, [s; s])] [s] = false.
Proof. exact defective_chains_rejected. Qed.
Print Assumptions C13_defective_chains_rejected.

(* the executable collision test the harness evaluates on the regenerated chain is constantly false *)
Theorem C13_no_collision_on_source_chain :
  forall r r' : list str, collideb Gen_merge.steps Gen_merge.sep r r' = false.
Proof. exact (fun r r' => accepted_chain_never_collides Gen_merge.steps Gen_merge.sep r r' eq_refl). Qed.
Print Assumptions C13_no_collision_on_source_chain.

(* non-vacuity: premises are satisfiable on values containing separator, backslash, empty string *)
Example C13_example :
  let r := [[97; 44]; [92]; []] in r <> [] /\
  unmergep (chain_esc Gen_merge.steps) (chain_sep Gen_merge.sep) (merge_src r) = r.
Proof. split; [discriminate | vm_compute; reflexivity]. Qed.

(* non-vacuity of the call-site theorems: a 2-column fit table and a 2-column predict table whose naive
   joins collide; both blocks produce a column, and the keys agree exactly for the equal tuples *)
Example C13_example_sites :
  let tab  := [[[97; 44]; [98]]; [[97]; [44; 98]]] in
  let tab' := [[[97]; [44; 98]]; [[97; 44]; [98]]; [[97]; [98]]] in
  (1 < ncols tab)%nat /\ (1 < ncols tab')%nat /\
  (exists col col', sensitive_column_src tab = Some col /\ sensitive_column_src tab' = Some col' /\
     nth 0 col' [] = nth 1 col [] /\ nth 1 col' [] = nth 0 col [] /\ nth 0 col' [] <> nth 0 col [] /\
     ~ In (nth 2 col' []) col) /\
  control_column_src tab <> None.
Proof.
  cbv zeta. split; [vm_compute; reflexivity|]. split; [vm_compute; reflexivity|]. split.
  - eexists. eexists. split; [vm_compute; reflexivity|]. split; [vm_compute; reflexivity|].
    vm_compute. repeat split; try reflexivity; try discriminate.
    intros [H | [H | []]]; discriminate H.
  - vm_compute. discriminate.
Qed.
