(* C02 -- MetricFrame aggregates are the documented functions of by_group and overall.
   Only statements, `exact`, Print Assumptions.  One metric column within one control-feature
   combination: [cells] = by_group values of the sensitive groups (NaN = empty intersection),
   [ov] = the overall value of that control level.  The to_overall ratio is stated on the fold
   REGENERATED from /repo (FLGen.Gen_ratio.ratio_sub_one) on every run. *)
From Coq Require Import QArith ZArith List Bool.
From FL Require Import Num Aggregates Aggregates_proofs.
From FLGen Require Gen_ratio Gen_aggregates.
Import ListNotations.
Open Scope Q_scope.

Definition ratio_to_overall_src := ratio_to_overall_with Gen_ratio.ratio_sub_one.
Definition aggregates_src := aggregates_with Gen_ratio.ratio_sub_one.

(* difference(between_groups) = group_max - group_min (NaN when every group is empty) *)
Theorem C02_diff_between_eq :
  forall cells, Forall fin_or_nan cells ->
    ext_eq (diff_between cells) (ext_sub (group_max cells) (group_min cells)).
Proof. exact diff_between_eq. Qed.
Print Assumptions C02_diff_between_eq.

Theorem C02_diff_nonneg :
  forall cells ov, Forall fin_or_nan cells -> fin_or_nan ov ->
    nonneg_or_nan (diff_between cells) /\ nonneg_or_nan (diff_to_overall cells ov).
Proof. exact diff_nonneg. Qed.
Print Assumptions C02_diff_nonneg.

(* to_overall ratio <= 1 for ALL cells (any sign, inf, NaN) and any overall value *)
Theorem C02_ratio_to_overall_le_one :
  forall cells ov, le_one_or_nan (ratio_to_overall_src cells ov).
Proof. exact ratio_to_overall_le_one. Qed.
Print Assumptions C02_ratio_to_overall_le_one.

(* FULL statement "ratio(between_groups) <= 1 for all finite cells" is false (see the _refuted theorem);
   proved for non-negative cells, together with ratio >= 0 *)
Theorem C02_ratio_between_le_one_partial :
  forall cells, Forall nonneg_or_nan cells -> unit_or_nan (ratio_between cells).
Proof. exact ratio_between_unit. Qed.
Print Assumptions C02_ratio_between_le_one_partial.

Theorem C02_ratio_between_le_one_refuted :
  let cells := [Fin (-2 # 1); Fin (-1 # 1)] in
  Forall fin_or_nan cells /\ ratio_between cells = Fin ((-2 # 1) / (-1 # 1)) /\ 1 < (-2 # 1) / (-1 # 1).
Proof. exact ratio_between_exceeds_one. Qed.
Print Assumptions C02_ratio_between_le_one_refuted.

(* ratio >= 0 (and <= 1) for non-negative metrics, to_overall *)
Theorem C02_ratio_nonneg :
  forall cells ov, Forall nonneg_or_nan cells -> nonneg_or_nan ov ->
    unit_or_nan (ratio_to_overall_src cells ov).
Proof. exact ratio_to_overall_unit. Qed.
Print Assumptions C02_ratio_nonneg.

Theorem C02_between_le_twice_overall :
  forall cells o, Forall fin_or_nan cells ->
    match diff_between cells, diff_to_overall cells (Fin o) with
    | Fin a, Fin b => a <= 2 * b
    | NaN, NaN => True
    | _, _ => False
    end.
Proof. exact between_le_twice_overall. Qed.
Print Assumptions C02_between_le_twice_overall.

(* overall = positive-weight mean of the non-empty group values (selection rate, accuracy, mean
   prediction with group weight = sum of the group's sample weights) *)
Theorem C02_overall_le_between_for_means :
  forall cells ws o,
    Forall fin_or_nan cells -> length ws = length cells -> Forall (fun w => 0 < w) ws ->
    o * wsum_fin ws cells == wvsum_fin ws cells ->
    match diff_between cells, diff_to_overall cells (Fin o) with
    | Fin a, Fin b => b <= a
    | NaN, NaN => True
    | _, _ => False
    end.
Proof. exact overall_le_between_for_means. Qed.
Print Assumptions C02_overall_le_between_for_means.

Theorem C02_raise_coerce_agree :
  forall cells ov, aggregates_coerce (map Sc cells) (Sc ov) = aggregates_src cells ov.
Proof. exact raise_coerce_agree. Qed.
Print Assumptions C02_raise_coerce_agree.

(* ================================================================================================
   Extension: the WHOLE by_group / overall tables.  Gen_aggregates is regenerated on every run from
   DisaggregatedResult.apply_grouping / difference / ratio (and MetricFrame._populate_results / _group)
   by translators/t_aggregates.py; the C02_src_... theorems state that the regenerated fragments ARE the
   model's definitions (the functions Aggregates.mf_...), the remaining ones are stated on the regenerated functions.
   ================================================================================================ *)

(* the three `errors='coerce'` / pre-subtraction cell filters keep every scalar -- bools, ints and floats,
   ZERO included -- and turn a non-scalar into NaN.  `isinstance(y, float)` fails on (PyInt z),
   `np.isscalar(y) and y or np.nan` fails on zero. *)
Theorem C02_src_filters :
  (forall y, Gen_aggregates.filter_apply_grouping_1 y = coerce_py y) /\
  (forall y, Gen_aggregates.filter_apply_grouping_2 y = coerce_py y) /\
  (forall y, Gen_aggregates.filter_difference_1 y = coerce_py y).
Proof.
  exact (conj (filter_by_cases Gen_aggregates.filter_apply_grouping_1
                 (fun _ => eq_refl) (fun _ => eq_refl) (fun _ => eq_refl) eq_refl)
        (conj (filter_by_cases Gen_aggregates.filter_apply_grouping_2
                 (fun _ => eq_refl) (fun _ => eq_refl) (fun _ => eq_refl) eq_refl)
              (filter_by_cases Gen_aggregates.filter_difference_1
                 (fun _ => eq_refl) (fun _ => eq_refl) (fun _ => eq_refl) eq_refl))).
Qed.
Print Assumptions C02_src_filters.

(* what the filter means in terms of the abstract cells of the per-level model *)
Theorem C02_filter_is_coerce_cell :
  forall y, num_of (Gen_aggregates.filter_difference_1 y) = coerce_cell (py_to_acell y)
            /\ py_scalar (Gen_aggregates.filter_difference_1 y).
Proof. exact coerce_py_is_coerce_cell. Qed.
Print Assumptions C02_filter_is_coerce_cell.

(* group_min is backed by "min", group_max by "max" (MetricFrame._populate_results) *)
Theorem C02_src_group_functions :
  Gen_aggregates.populate_group_min = AggMin /\ Gen_aggregates.populate_group_max = AggMax.
Proof. exact (conj eq_refl eq_refl). Qed.
Print Assumptions C02_src_group_functions.

(* apply_grouping: the requested function, skipna left at its default, the filter only under 'coerce' *)
Theorem C02_src_apply_grouping :
  Gen_aggregates.apply_grouping_nocf = mf_group_nocf /\
  (forall (K : Type) (keqb : K -> K -> bool), Gen_aggregates.apply_grouping_cf keqb = mf_group_cf keqb).
Proof. exact (conj eq_refl (fun K keqb => eq_refl)). Qed.
Print Assumptions C02_src_apply_grouping.

(* difference: (mf - subtrahend).abs().max() per level, subtrahend = min (between_groups) / overall (to_overall) *)
Theorem C02_src_difference :
  Gen_aggregates.difference_nocf = mf_difference_nocf /\
  (forall (K : Type) (keqb : K -> K -> bool), Gen_aggregates.difference_cf keqb = mf_difference_cf keqb).
Proof. exact (conj eq_refl (fun K keqb => eq_refl)). Qed.
Print Assumptions C02_src_difference.

(* ratio: min / max (between_groups); (by_group / overall).transform(fold).min() (to_overall), nothing dropped *)
Theorem C02_src_ratio :
  Gen_aggregates.ratio_nocf = mf_ratio_nocf /\
  (forall (K : Type) (keqb : K -> K -> bool), Gen_aggregates.ratio_cf keqb = mf_ratio_cf keqb).
Proof. exact (conj eq_refl (fun K keqb => eq_refl)). Qed.
Print Assumptions C02_src_ratio.

(* C02_per_control_level.  [levels] = for every control level (key, (cells of the sensitive groups, that
   level's overall value)); rows_of / overall_of lay them out as the by_group rows and the overall table.
   Every aggregate of the whole table is, level by level, the NO-CONTROL aggregate of that level's cells and
   of that level's OWN overall value [snd (snd lv)]. *)
Theorem C02_per_control_level :
  forall (K : Type) (keqb : K -> K -> bool), (forall a b, keqb a b = true <-> a = b) ->
  forall e (levels : list (K * (list pycell * ext))),
    NoDup (map fst levels) -> (forall lv, In lv levels -> fst (snd lv) <> []) ->
    mf_table_cf keqb Gen_ratio.ratio_sub_one e (rows_of levels) (overall_of levels)
    = map (fun lv => (fst lv, mf_record_nocf Gen_ratio.ratio_sub_one e (fst (snd lv)) (snd (snd lv)))) levels.
Proof. exact (fun K keqb H => per_control_level keqb H Gen_ratio.ratio_sub_one). Qed.
Print Assumptions C02_per_control_level.

(* the same for by_group rows in ANY order and any overall table: the record at control key k is made of the
   rows of key k and of the overall value at key k *)
Theorem C02_table_keyed :
  forall (K : Type) (keqb : K -> K -> bool), (forall a b, keqb a b = true <-> a = b) ->
  forall e by_group overall,
    mf_table_cf keqb Gen_ratio.ratio_sub_one e by_group overall
    = map (fun k => (k, mf_record_nocf Gen_ratio.ratio_sub_one e (kcells keqb k by_group) (klookup keqb k overall)))
          (kkeys keqb (map fst by_group)).
Proof. exact (fun K keqb H => mf_table_keyed keqb H Gen_ratio.ratio_sub_one). Qed.
Print Assumptions C02_table_keyed.

(* aggregate by aggregate, on the REGENERATED functions *)
Theorem C02_group_per_level_src :
  forall (K : Type) (keqb : K -> K -> bool), (forall a b, keqb a b = true <-> a = b) ->
  forall g e (levels : list (K * (list pycell * ext))) lv,
    NoDup (map fst levels) -> (forall lv, In lv levels -> fst (snd lv) <> []) -> In lv levels ->
    klookup keqb (fst lv) (Gen_aggregates.apply_grouping_cf keqb g e (rows_of levels))
    = Gen_aggregates.apply_grouping_nocf g e (fst (snd lv)).
Proof. exact (fun K keqb H => group_per_level keqb H). Qed.
Print Assumptions C02_group_per_level_src.

Theorem C02_difference_per_level_src :
  forall (K : Type) (keqb : K -> K -> bool), (forall a b, keqb a b = true <-> a = b) ->
  forall m e (levels : list (K * (list pycell * ext))) lv,
    NoDup (map fst levels) -> (forall lv, In lv levels -> fst (snd lv) <> []) -> In lv levels ->
    klookup keqb (fst lv) (Gen_aggregates.difference_cf keqb m e (rows_of levels) (overall_of levels))
    = Gen_aggregates.difference_nocf m e (fst (snd lv)) (snd (snd lv)).
Proof. exact (fun K keqb H => difference_per_level keqb H). Qed.
Print Assumptions C02_difference_per_level_src.

Theorem C02_ratio_per_level_src :
  forall (K : Type) (keqb : K -> K -> bool), (forall a b, keqb a b = true <-> a = b) ->
  forall m e (levels : list (K * (list pycell * ext))) lv,
    NoDup (map fst levels) -> (forall lv, In lv levels -> fst (snd lv) <> []) -> In lv levels ->
    klookup keqb (fst lv) (Gen_aggregates.ratio_cf keqb Gen_ratio.ratio_sub_one m e (rows_of levels) (overall_of levels))
    = Gen_aggregates.ratio_nocf Gen_ratio.ratio_sub_one m e (fst (snd lv)) (snd (snd lv)).
Proof. exact (fun K keqb H => ratio_per_level keqb H Gen_ratio.ratio_sub_one). Qed.
Print Assumptions C02_ratio_per_level_src.

(* no control features = one level *)
Theorem C02_no_control_is_one_level :
  forall e cells ov, cells <> [] ->
    mf_table_cf (fun _ _ : unit => true) Gen_ratio.ratio_sub_one e
                (rows_of [(tt, (cells, ov))]) (overall_of [(tt, (cells, ov))])
    = [(tt, mf_record_nocf Gen_ratio.ratio_sub_one e cells ov)].
Proof. exact (no_control_is_one_level Gen_ratio.ratio_sub_one). Qed.
Print Assumptions C02_no_control_is_one_level.

(* the column-level (no control) functions ARE the per-level model all theorems above are about: on scalar
   cells -- python ints, floats, bools -- for errors='raise' and 'coerce' alike *)
Theorem C02_column_is_aggregates :
  forall e cells ov, Forall py_scalar cells ->
    mf_record_nocf Gen_ratio.ratio_sub_one e cells ov = aggregates_src (c_num cells) ov.
Proof. exact (record_nocf_scalar Gen_ratio.ratio_sub_one). Qed.
Print Assumptions C02_column_is_aggregates.

(* errors='coerce' with arbitrary cells: min, max, both differences and ratio(between_groups) see a
   non-scalar cell as NaN.  PARTIAL: ratio(to_overall) divides the UNFILTERED by_group (the source applies
   no filter there, whatever `errors`), which is outside the model for non-scalar cells. *)
Theorem C02_coerce_nonscalar_is_nan_partial :
  forall cells ov,
    let r := mf_record_nocf Gen_ratio.ratio_sub_one ErrCoerce cells ov in
    let a := aggregates_coerce (map py_to_acell cells) (Sc ov) in
    a_min r = a_min a /\ a_max r = a_max a /\ a_diff_between r = a_diff_between a
    /\ a_diff_overall r = a_diff_overall a /\ a_ratio_between r = a_ratio_between a.
Proof. exact (record_nocf_coerce Gen_ratio.ratio_sub_one). Qed.
Print Assumptions C02_coerce_nonscalar_is_nan_partial.

(* a per-level theorem lifted to the whole table: every row of the to_overall ratio table is <= 1 *)
Theorem C02_table_ratio_to_overall_le_one :
  forall (K : Type) (keqb : K -> K -> bool), (forall a b, keqb a b = true <-> a = b) ->
  forall e by_group overall,
    Forall (fun kr => le_one_or_nan (a_ratio_overall (snd kr)))
           (mf_table_cf keqb Gen_ratio.ratio_sub_one e by_group overall).
Proof. exact (fun K keqb H => table_ratio_to_overall_le_one keqb H). Qed.
Print Assumptions C02_table_ratio_to_overall_le_one.

(* non-vacuity of C02_per_control_level and what it excludes: two control levels with integer cells, a zero
   cell and a non-scalar cell.  Level 0 has overall 3, level 1 overall 2, the global overall is 5/2: the
   to_overall difference of level 0 is 3 with its own overall, but would be 2 with level 1's and 5/2 with the
   global one; the to_overall ratio of level 1 is 1/4, but would be 1/6 resp. 1/5. *)
Example C02_per_control_level_example :
  let c0 := [PyInt 4; PyInt 0; PyNonScalar; PyInt 3] in
  let c1 := [PyFloat (Fin (1 # 2)); PyInt 2] in
  let levels := [(0%Z, (c0, Fin 3)); (1%Z, (c1, Fin 2))] in
  let diff := Gen_aggregates.difference_cf Z.eqb ToOverall ErrCoerce (rows_of levels) (overall_of levels) in
  let ratio := Gen_aggregates.ratio_cf Z.eqb Gen_ratio.ratio_sub_one ToOverall ErrCoerce
                                       (rows_of levels) (overall_of levels) in
  (forall a b, Z.eqb a b = true <-> a = b) /\ NoDup (map fst levels)
  /\ (forall lv, In lv levels -> fst (snd lv) <> [])
  /\ Flat.enc_ext (klookup Z.eqb 0%Z diff) = [0; 3; 1]%Z
  /\ Flat.enc_ext (Gen_aggregates.difference_nocf ToOverall ErrCoerce c0 (Fin 3)) = [0; 3; 1]%Z
  /\ Flat.enc_ext (Gen_aggregates.difference_nocf ToOverall ErrCoerce c0 (Fin 2)) = [0; 2; 1]%Z
  /\ Flat.enc_ext (Gen_aggregates.difference_nocf ToOverall ErrCoerce c0 (Fin (5 # 2))) = [0; 5; 2]%Z
  /\ Flat.enc_ext (klookup Z.eqb 1%Z ratio) = [0; 1; 4]%Z
  /\ Flat.enc_ext (Gen_aggregates.ratio_nocf Gen_ratio.ratio_sub_one ToOverall ErrCoerce c1 (Fin 2)) = [0; 1; 4]%Z
  /\ Flat.enc_ext (Gen_aggregates.ratio_nocf Gen_ratio.ratio_sub_one ToOverall ErrCoerce c1 (Fin 3)) = [0; 1; 6]%Z
  /\ Flat.enc_ext (Gen_aggregates.ratio_nocf Gen_ratio.ratio_sub_one ToOverall ErrCoerce c1 (Fin (5 # 2))) = [0; 1; 5]%Z.
Proof.
  cbv zeta. split; [exact Z.eqb_eq|]. split; [repeat constructor; cbn; intuition discriminate|].
  split; [intros lv [<-|[<-|[]]]; discriminate|].
  repeat split; vm_compute; reflexivity.
Qed.

(* non-vacuity: a table with an empty intersection (NaN), a zero group value and a zero overall *)
Example C02_example :
  let cells := [Fin (1 # 2); NaN; Fin 0; Fin (1 # 4)] in
  let ws := [2; 1; 1; 1] in
  Forall fin_or_nan cells /\ Forall nonneg_or_nan cells /\ Forall (fun w => 0 < w) ws
  /\ (5 # 16) * wsum_fin ws cells == wvsum_fin ws cells
  /\ diff_between cells = Fin (1 # 2) /\ ratio_between cells = Fin (0 / (1 # 2))
  /\ Flat.enc_ext (ratio_to_overall_src cells (Fin 0)) = [0%Z; 0%Z; 1%Z]
  /\ Flat.enc_ext (diff_to_overall cells (Fin (5 # 16))) = [0%Z; 5%Z; 16%Z].
Proof.
  cbv zeta. repeat split; try (vm_compute; reflexivity); try (vm_compute; discriminate);
    repeat constructor; try exact I; try (vm_compute; discriminate).
Qed.
