(* C02 -- MetricFrame aggregates are the documented functions of by_group and overall.
   Only statements, `exact`, Print Assumptions.  One metric column within one control-feature
   combination: [cells] = by_group values of the sensitive groups (NaN = empty intersection),
   [ov] = the overall value of that control level.  The to_overall ratio is stated on the fold
   REGENERATED from /repo (FLGen.Gen_ratio.ratio_sub_one) on every run. *)
From Coq Require Import QArith ZArith List Bool.
From FL Require Import Num Aggregates Aggregates_proofs.
From FLGen Require Gen_ratio.
Import ListNotations.
Open Scope Q_scope.

Definition ratio_to_overall_src := ratio_to_overall_with Gen_ratio.ratio_sub_one.
Definition aggregates_src := aggregates_with Gen_ratio.ratio_sub_one.

(* difference(between_groups) = group_max - group_min (NaN when every group is empty) *)
Theorem C02_diff_between_eq :
  forall cells, Forall fin_or_nan cells ->
    ext_eq (diff_between cells) (ext_sub (group_max cells) (group_min cells)).
Proof. exact diff_between_eq. Qed.
Print Assumptions C02_diff_between_eq.

Theorem C02_diff_nonneg :
  forall cells ov, Forall fin_or_nan cells -> fin_or_nan ov ->
    nonneg_or_nan (diff_between cells) /\ nonneg_or_nan (diff_to_overall cells ov).
Proof. exact diff_nonneg. Qed.
Print Assumptions C02_diff_nonneg.

(* to_overall ratio <= 1 for ALL cells (any sign, inf, NaN) and any overall value *)
Theorem C02_ratio_to_overall_le_one :
  forall cells ov, le_one_or_nan (ratio_to_overall_src cells ov).
Proof. exact ratio_to_overall_le_one. Qed.
Print Assumptions C02_ratio_to_overall_le_one.

(* FULL statement "ratio(between_groups) <= 1 for all finite cells" is false (see the _refuted theorem);
   proved for non-negative cells, together with ratio >= 0 *)
Theorem C02_ratio_between_le_one_partial :
  forall cells, Forall nonneg_or_nan cells -> unit_or_nan (ratio_between cells).
Proof. exact ratio_between_unit. Qed.
Print Assumptions C02_ratio_between_le_one_partial.

Theorem C02_ratio_between_le_one_refuted :
  let cells := [Fin (-2 # 1); Fin (-1 # 1)] in
  Forall fin_or_nan cells /\ ratio_between cells = Fin ((-2 # 1) / (-1 # 1)) /\ 1 < (-2 # 1) / (-1 # 1).
Proof. exact ratio_between_exceeds_one. Qed.
Print Assumptions C02_ratio_between_le_one_refuted.

(* ratio >= 0 (and <= 1) for non-negative metrics, to_overall *)
Theorem C02_ratio_nonneg :
  forall cells ov, Forall nonneg_or_nan cells -> nonneg_or_nan ov ->
    unit_or_nan (ratio_to_overall_src cells ov).
Proof. exact ratio_to_overall_unit. Qed.
Print Assumptions C02_ratio_nonneg.

Theorem C02_between_le_twice_overall :
  forall cells o, Forall fin_or_nan cells ->
    match diff_between cells, diff_to_overall cells (Fin o) with
    | Fin a, Fin b => a <= 2 * b
    | NaN, NaN => True
    | _, _ => False
    end.
Proof. exact between_le_twice_overall. Qed.
Print Assumptions C02_between_le_twice_overall.

(* overall = positive-weight mean of the non-empty group values (selection rate, accuracy, mean
   prediction with group weight = sum of the group's sample weights) *)
Theorem C02_overall_le_between_for_means :
  forall cells ws o,
    Forall fin_or_nan cells -> length ws = length cells -> Forall (fun w => 0 < w) ws ->
    o * wsum_fin ws cells == wvsum_fin ws cells ->
    match diff_between cells, diff_to_overall cells (Fin o) with
    | Fin a, Fin b => b <= a
    | NaN, NaN => True
    | _, _ => False
    end.
Proof. exact overall_le_between_for_means. Qed.
Print Assumptions C02_overall_le_between_for_means.

Theorem C02_raise_coerce_agree :
  forall cells ov, aggregates_coerce (map Sc cells) (Sc ov) = aggregates_src cells ov.
Proof. exact raise_coerce_agree. Qed.
Print Assumptions C02_raise_coerce_agree.

(* non-vacuity: a table with an empty intersection (NaN), a zero group value and a zero overall *)
Example C02_example :
  let cells := [Fin (1 # 2); NaN; Fin 0; Fin (1 # 4)] in
  let ws := [2; 1; 1; 1] in
  Forall fin_or_nan cells /\ Forall nonneg_or_nan cells /\ Forall (fun w => 0 < w) ws
  /\ (5 # 16) * wsum_fin ws cells == wvsum_fin ws cells
  /\ diff_between cells = Fin (1 # 2) /\ ratio_between cells = Fin (0 / (1 # 2))
  /\ Flat.enc_ext (ratio_to_overall_src cells (Fin 0)) = [0%Z; 0%Z; 1%Z]
  /\ Flat.enc_ext (diff_to_overall cells (Fin (5 # 16))) = [0%Z; 5%Z; 16%Z].
Proof.
  cbv zeta. repeat split; try (vm_compute; reflexivity); try (vm_compute; discriminate);
    repeat constructor; try exact I; try (vm_compute; discriminate).
Qed.
