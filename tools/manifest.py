#!/venv/bin/python
"""Regenerate MANIFEST.json from the property modules under harness/props/ (one per claimed property).
Properties without a module are listed under not_applicable with the reason given in NOT_CLAIMED."""
import importlib, json, os, sys
HERE = os.path.dirname(os.path.dirname(os.path.abspath(__file__)))
sys.path[:0] = [HERE]
os.chdir(HERE)
ALL = [f"C{i:02d}" for i in range(1, 21)]
NOT_CLAIMED = {}
BASELINE = ("cd /repo && /venv/bin/python -m pytest -ra -q -p no:cacheprovider --timeout=900 "
            "--continue-on-collection-errors")
checks, na = [], []
CLAIMED = set(open(os.path.join(HERE, "tools", "claimed.txt")).read().split())
for pid in ALL:
    path = os.path.join(HERE, "harness", "props", pid.lower() + ".py")
    if pid not in CLAIMED or not os.path.exists(path):
        na.append({"property_id": pid, "reason": NOT_CLAIMED.get(
            pid, "no check registered yet: the Coq model / theorems / correspondence for this property are not "
                 "built in this snapshot (the technique applies; see DESIGN.md section 6)")})
        continue
    M = importlib.import_module(f"harness.props.{pid.lower()}")
    checks.append({
        "property_id": pid,
        "quick_cmd": f"./check {pid} --tier quick",
        "thorough_cmd": f"./check {pid} --tier thorough",
        "evidence_file": f"evidence/{pid}.json",
        "replay_cmd_template": f"./check {pid} --replay {{path}}",
        "engine": "coq-model+correspondence",
        "level_claimed": {"category": "proof", "text": M.LEVEL_TEXT, "design_ref": f"DESIGN.md section 6, {pid}"},
        "level_note": M.LEVEL_NOTE,
        "technique": M.TECHNIQUE,
    })
doc = {
    "version": 1,
    "setup_cmd": "./setup.sh",
    "hooks": {"guard": "FAIRLEARN_VERIF",
              "enable": "none needed: every observable is reached through public attributes and public extension "
                        "points (metric callables, backend=, random_state=, estimator=); checks export "
                        "FAIRLEARN_VERIF=1 but no source line reads it",
              "baseline_off_cmd": BASELINE, "source_commits": [], "add_only": True},
    "engines": [{"name": "coq-model+correspondence", "path": "check",
                 "serves_properties": [c["property_id"] for c in checks],
                 "kind_free_text": "Coq 8.16.1 theorems about executable Gallina models (coq/theories, coq/props); "
                                   "models tied to /repo on every run by source translators (translators/, coq/gen) "
                                   "and by a differential run of the same Gallina definitions (vm_compute) against "
                                   "the implementation (harness/)"}],
    "checks": checks,
    "not_applicable": na,
    "notes": "See DESIGN.md. Genuine defects repaired in /repo are the 'fix:' commits listed in known_findings.json.",
}
json.dump(doc, open(os.path.join(HERE, "MANIFEST.json"), "w"), indent=1)
print(f"MANIFEST.json: {len(checks)} checks, {len(na)} not claimed")
