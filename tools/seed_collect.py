#!/venv/bin/python
"""Collect the independently seeded changes into /verif/seeded/<id>/ and write seeded/SUMMARY.md.

For every /tmp/seed_Cxx/mK that has patch.diff, demo.py, a suite result (suite.json) and at least one check result
(confirm_nosuite*.json): keep it iff the patch applies, the demonstration fails with the change and passes
without it, and no test that passes on the clean tree fails with it.  meta.json records which property it
breaks, what it needs in order to manifest (the seeder's words), and what was run here."""
import glob, json, os, re, shutil, sys
from pathlib import Path

VERIF = Path(__file__).resolve().parent.parent
OUT = VERIF / "seeded"
rows = []
for sd in sorted(glob.glob("/tmp/seed_C*/m?")) + sorted(glob.glob("/tmp/seed2_C*/m?")) + sorted(glob.glob("/tmp/seed3_C*/m?")) + sorted(glob.glob("/tmp/seed4_C*/m?")) + sorted(glob.glob("/tmp/seed5_C*/m?")):
    sd = Path(sd)
    if not (sd / "patch.diff").exists() or not (sd / "demo.py").exists():
        continue
    sid = re.sub(r"^seed(\d*)_", lambda m: ("r" + m.group(1) + "_") if m.group(1) else "", sd.parent.name) + "_" + sd.name
    meta = json.loads((sd / "meta.json").read_text()) if (sd / "meta.json").exists() else {}
    suite = json.loads((sd / "suite.json").read_text()) if (sd / "suite.json").exists() else None
    checks = {}
    for f in sorted(sd.glob("confirm_nosuite*.json")):
        d = json.loads(f.read_text())
        pid = re.search(r"confirm_nosuite_?(C\d\d)?\.json", f.name).group(1) or d.get("property")
        c = d.get("check") or {}
        checks[pid] = {"exit": c.get("exit"), "detected": c.get("detected"),
                       "with_failing_input": c.get("with_failing_input"), "wall_s": c.get("wall_s"),
                       "lines": c.get("lines", [])[-6:]}
        first = d
    if suite is None or not checks:
        print(f"skip {sid}: suite={suite is not None} checks={list(checks)}")
        continue
    demo_w = (suite.get("demo_with_change") or {}).get("exit")
    demo_wo = (suite.get("demo_without_change") or {}).get("exit")
    clean = set((VERIF / "seeded" / "clean_failures.txt").read_text().split())
    new_fail = (suite.get("suite") or {}).get("new_failures")
    if new_fail is not None:
        new_fail = [t for t in new_fail if t not in clean]
    ok = suite.get("patch_applies") and demo_w == 1 and demo_wo == 0 and new_fail == []
    labelled = meta.get("property") or re.search(r"(C\d\d)", sd.parent.name).group(1)
    dst = OUT / sid
    if not ok:
        print(f"NOT KEPT {sid}: applies={suite.get('patch_applies')} demo={demo_w}/{demo_wo} new_failures={new_fail}")
        continue
    dst.mkdir(parents=True, exist_ok=True)
    shutil.copy(sd / "patch.diff", dst / "patch.diff")
    shutil.copy(sd / "demo.py", dst / "demo.py")
    m = {
        "id": sid, "property": labelled,
        "summary": meta.get("summary"), "needs_to_manifest": meta.get("needs_to_manifest"),
        "files_changed": meta.get("files_changed"),
        "seeder_tests_run": meta.get("tests_run"),
        "confirmed_here": {
            "patch": "git apply on a fresh worktree of /repo HEAD: ok",
            "demo": f"FL_REPO=<patched worktree> /venv/bin/python demo.py -> exit {demo_w}; FL_REPO=/repo -> exit {demo_wo}",
            "suite": {"cmd": "OMP_NUM_THREADS=1 OPENBLAS_NUM_THREADS=1 MKL_NUM_THREADS=1 LOKY_MAX_CPU_COUNT=1 "
                             "OMP_WAIT_POLICY=passive /venv/bin/python -m pytest -q -p no:cacheprovider "
                             "--timeout=1800 --continue-on-collection-errors test (in the patched worktree)",
                      "summary": (suite.get("suite") or {}).get("summary"),
                      "tests_failing_that_pass_on_clean_tree": new_fail},
            "checks": checks,
        },
    }
    (dst / "meta.json").write_text(json.dumps(m, indent=1))
    caught_by = [p for p, c in checks.items() if c["detected"]]
    with_input = [p for p, c in checks.items() if c["with_failing_input"]]
    rows.append((sid, labelled, (meta.get("summary") or "")[:110].replace("|", "/"),
                 (meta.get("needs_to_manifest") or "")[:120].replace("|", "/"),
                 ", ".join(f"{p}{'' if p in with_input else ' (no-failing-input-found)'}" for p in caught_by) or "—",
                 ", ".join(p for p in checks if p not in caught_by) or ""))
lines = ["# Seeded changes (written by independent sub-agents that saw only the property text)", "",
         "Each directory holds patch.diff, demo.py (exits 1 with the change, 0 without) and meta.json (what it breaks, "
         "what it needs to manifest, what was run here: patch applies, demonstration with / without the change, the "
         "whole unedited suite on the patched tree, and the checks run against it with VERIF_REPO=<patched tree>).", "",
         "| id | property | change | needs | caught by (./check …) | run but silent |", "|---|---|---|---|---|---|"]
for r in rows:
    lines.append("| " + " | ".join(r) + " |")
(OUT / "SUMMARY.md").write_text("\n".join(lines) + "\n")
print(f"kept {len(rows)} seeds")
