#!/bin/bash
# run every claimed check's quick tier once, sequentially; print the summary lines
cd "$(dirname "$0")/.."
for p in $(cat tools/claimed.txt); do
  ./check $p --tier ${1:-quick} > build/runall_$p.out 2>&1
  echo "rc=$? $(tail -n 1 build/runall_$p.out | cut -c1-160)"
  grep -E "^VIOLATION" build/runall_$p.out | head -3
done
