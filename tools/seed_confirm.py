#!/venv/bin/python
"""Confirm one seeded change and run the matching check against it.

usage: tools/seed_confirm.py /tmp/seed_Cxx/mK [--no-suite] [--tier quick]

1. fresh git worktree of /repo HEAD under /tmp, patch applied with `git apply`
2. demo.py must exit 1 against the patched tree and 0 against /repo
3. (unless --no-suite) the whole existing test suite on the patched tree: no test that passes on the clean tree
   (seeded/clean_failures.txt lists the ones that fail there) may fail
4. ./check <property> with VERIF_REPO=<patched tree>: records exit status and VIOLATION lines
Result: <seed dir>/confirm.json ; the worktree is removed.
"""
import json, os, re, subprocess, sys, time, xml.etree.ElementTree as ET
from pathlib import Path

VERIF = Path(__file__).resolve().parent.parent
PINS = dict(OMP_NUM_THREADS="1", OPENBLAS_NUM_THREADS="1", MKL_NUM_THREADS="1", LOKY_MAX_CPU_COUNT="1",
            OMP_WAIT_POLICY="passive", PYTHONDONTWRITEBYTECODE="1", PYTHONHASHSEED="0")


def run(cmd, cwd=None, env=None, timeout=None):
    e = dict(os.environ); e.update(PINS); e.update(env or {})
    p = subprocess.run(cmd, cwd=cwd, env=e, stdout=subprocess.PIPE, stderr=subprocess.STDOUT, text=True, timeout=timeout)
    return p.returncode, p.stdout


def main():
    sd = Path(sys.argv[1]).resolve()
    suite = "--no-suite" not in sys.argv
    tier = sys.argv[sys.argv.index("--tier") + 1] if "--tier" in sys.argv else "quick"
    meta = json.loads((sd / "meta.json").read_text()) if (sd / "meta.json").exists() else {}
    pid = meta.get("property") or re.search(r"seed\d*_(C\d\d)", str(sd)).group(1)
    labelled = pid
    if "--check" in sys.argv:
        pid = sys.argv[sys.argv.index("--check") + 1]
    tag = f"{sd.parent.name}_{sd.name}" + ("_" + sys.argv[sys.argv.index("--check") + 1] if "--check" in sys.argv else "")
    wt = Path(f"/tmp/sc_{tag}")
    res = {"seed": str(sd), "property": pid, "started": time.strftime("%F %T")}
    subprocess.run(["git", "-C", "/repo", "worktree", "remove", "--force", str(wt)], capture_output=True)
    rc, out = run(["git", "-C", "/repo", "worktree", "add", "-q", "--detach", str(wt), "HEAD"])
    try:
        rc, out = run(["git", "-C", str(wt), "apply", str(sd / "patch.diff")])
        res["patch_applies"] = rc == 0
        if rc != 0:
            res["error"] = out[-2000:]
            return res
        res["files_changed"] = run(["git", "-C", str(wt), "diff", "--stat"])[1].strip().splitlines()[-1:]
        rc1, o1 = run(["/venv/bin/python", str(sd / "demo.py")], cwd="/tmp", env={"FL_REPO": str(wt), "PYTHONPATH": str(wt)}, timeout=1800)
        rc0, o0 = run(["/venv/bin/python", str(sd / "demo.py")], cwd="/tmp", env={"FL_REPO": "/repo", "PYTHONPATH": "/repo"}, timeout=1800)
        res["demo_with_change"] = {"exit": rc1, "tail": o1[-600:]}
        res["demo_without_change"] = {"exit": rc0, "tail": o0[-300:]}
        if suite:
            jx = f"/tmp/sc_{tag}.xml"
            t0 = time.time()
            rc, out = run(["/venv/bin/python", "-m", "pytest", "-q", "-p", "no:cacheprovider", "--timeout=1800",
                           "--continue-on-collection-errors", f"--junitxml={jx}", "test"], cwd=str(wt), timeout=4 * 3600)
            clean = set((VERIF / "seeded" / "clean_failures.txt").read_text().split())
            failed = []
            try:
                for tc in ET.parse(jx).getroot().iter("testcase"):
                    if tc.find("failure") is not None or tc.find("error") is not None:
                        cls, name = tc.get("classname", ""), tc.get("name", "")
                        failed.append((cls, name))
            except Exception as e:
                res["suite_parse_error"] = str(e)
            def nodeid(cls, name):
                parts = cls.split(".")
                # classname is a dotted module path, possibly followed by a test class
                for k in range(len(parts), 0, -1):
                    f = "/".join(parts[:k]) + ".py"
                    if (wt / f).exists():
                        return "::".join([f] + parts[k:] + [name])
                return cls + "::" + name
            new = sorted(n for n in (nodeid(c, m) for c, m in failed) if n not in clean and "::" in n and
                         not n.endswith("::"))
            res["suite"] = {"summary": out.strip().splitlines()[-1:] , "failed_total": len(failed),
                            "new_failures": new[:20], "wall_s": round(time.time() - t0)}
            Path(jx).unlink(missing_ok=True)
        if "--suite-only" in sys.argv:
            return res
        t0 = time.time()
        rc, out = run([str(VERIF / "check"), pid, "--tier", tier], cwd=str(VERIF),
                      env={"VERIF_REPO": str(wt), "VERIF_JOBS": os.environ.get("VERIF_JOBS", "8")}, timeout=3 * 3600)
        lines = [l for l in out.splitlines() if l.startswith(("VIOLATION", "KNOWN-FINDING", "#", "["))]
        res["check"] = {"exit": rc, "lines": [l[:400] for l in lines][-12:], "wall_s": round(time.time() - t0),
                        "detected": rc == 1 and any(l.startswith("VIOLATION") for l in lines),
                        "with_failing_input": any(l.startswith("VIOLATION") and "no-failing-input-found" not in l
                                                  for l in lines)}
        # keep the replay of the first violation next to the seed
        m = re.search(r"VIOLATION property=\S+ replay=(\S+)", out)
        if m:
            rp = VERIF / m.group(1)
            if rp.exists():
                res["check"]["replay_excerpt"] = rp.read_text()[:1500]
        return res
    finally:
        (sd / (("suite" if "--suite-only" in sys.argv else "confirm" if suite else "confirm_nosuite") + ("" if pid == labelled else "_" + pid) + ".json")).write_text(json.dumps(res, indent=1))
        subprocess.run(["git", "-C", "/repo", "worktree", "remove", "--force", str(wt)], capture_output=True)
        import hashlib, shutil
        alt = VERIF / "build" / "alt" / hashlib.sha1(str(wt).encode()).hexdigest()[:10]
        shutil.rmtree(alt, ignore_errors=True)
        print(json.dumps({k: res.get(k) for k in ("seed", "patch_applies", "demo_with_change", "demo_without_change", "suite", "check")}, indent=1)[:3000])


if __name__ == "__main__":
    main()
