"""C06 demo: with a control feature, gamma must carry one '+'/'-' entry per (stratum event, group)
pair that occurs in the data, with the documented value - for EVERY stratum, whatever its label.

Uses only the public API. Exits 1 when the documented entries are not reproduced.
"""
import os
import sys

sys.path.insert(0, os.environ.get("FL_REPO", "/tmp/wt5_C06"))

import numpy as np  # noqa: E402
import pandas as pd  # noqa: E402

from fairlearn.reductions import (  # noqa: E402
    DemographicParity,
    EqualizedOdds,
    ErrorRateParity,
    FalsePositiveRateParity,
    TruePositiveRateParity,
)

TOL = 1e-9


def base_events(name, y):
    if name in ("DemographicParity", "ErrorRateParity"):
        return ["all"] * len(y)
    if name == "TruePositiveRateParity":
        return [f"label={v}" if v == 1 else None for v in y]
    if name == "FalsePositiveRateParity":
        return [f"label={v}" if v == 0 else None for v in y]
    return [f"label={v}" for v in y]


def expected(u, events, group, ratio):
    df = pd.DataFrame({"u": u, "e": events, "g": group}).dropna(subset=["e"])
    out = {}
    for e, sub in df.groupby("e"):
        m_e = sub["u"].mean()
        for g, subg in sub.groupby("g"):
            m_eg = subg["u"].mean()
            out[("+", e, g)] = ratio * m_eg - m_e
            out[("-", e, g)] = ratio * m_e - m_eg
    return out


def main():
    y = np.array([0, 1, 1, 0, 1, 0, 0, 1, 1, 0, 1, 0, 1, 0, 0, 1], dtype=np.int64)
    sf = np.array(list("aabbaabbaabbaabb"))
    # a numeric 0/1 control feature (e.g. "has prior loan"), strata 0 and 1
    cf = np.array([0, 0, 0, 0, 0, 0, 0, 0, 1, 1, 1, 1, 1, 1, 1, 1], dtype=np.int64)
    X = pd.DataFrame({"x": np.arange(len(y), dtype=float)})
    soft = np.array(
        [0.1, 0.8, 0.35, 0.6, 0.9, 0.25, 0.5, 0.45, 0.7, 0.05, 0.15, 0.95, 0.3, 0.65, 0.2, 0.85]
    )

    problems = []
    for cls in (
        DemographicParity,
        TruePositiveRateParity,
        FalsePositiveRateParity,
        EqualizedOdds,
        ErrorRateParity,
    ):
        for kw, ratio in (({"difference_bound": 0.02}, 1.0), ({"ratio_bound": 0.8}, 0.8)):
            name = cls.__name__
            moment = cls(**kw)
            moment.load_data(X, y, sensitive_features=sf, control_features=cf)
            gamma = moment.gamma(lambda X_: soft)
            u = np.abs(y - soft) if name == "ErrorRateParity" else soft
            events = [
                None if b is None else f"control={c},{b}" for b, c in zip(base_events(name, y), cf)
            ]
            exp = expected(u, events, sf, ratio)
            missing = sorted(set(exp) - set(gamma.index))
            extra = sorted(set(gamma.index) - set(exp))
            if missing:
                problems.append(f"{name}{kw}: no constraint for {missing}")
            if extra:
                problems.append(f"{name}{kw}: unexpected constraints {extra}")
            if set(moment.bound().index) != set(exp):
                problems.append(f"{name}{kw}: bound() index differs from the documented constraints")
            for key, val in exp.items():
                if key in gamma.index and not abs(gamma[key] - val) <= TOL:
                    problems.append(f"{name}{kw}: gamma{key} = {gamma[key]!r}, documented {val!r}")

    if problems:
        print("C06 VIOLATED:")
        for p in problems:
            print("  " + p)
        return 1
    print("C06 holds on the demo inputs")
    return 0


if __name__ == "__main__":
    sys.exit(main())
