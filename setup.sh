#!/bin/bash
# setup_cmd: regenerate the source-derived Coq fragments from /repo, then a full .vo build
# (coq_makefile + make; never -vos/-vok).  Offline, files on disk only.
set -e
cd "$(dirname "$0")"
export PYTHONHASHSEED=0 PYTHONDONTWRITEBYTECODE=1
REPO="${VERIF_REPO:-/repo}"
export PYTHONPATH="$REPO:$PWD"
mkdir -p build evidence coq/gen
/venv/bin/python - <<'PY'
import importlib, sys
from harness import core
with core.BuildLock():
    fails = core.regen_sources()
    for k, v in fails.items():
        print(f"translator {k} FAILED: {v}")
    bad = core.forbidden_scan() + core.section_scan()
    for b in bad:
        print("forbidden:", b)
    # the targets of every claimed property must build; the rest of the tree is built too (-k) and
    # reported, so that unfinished files of an unclaimed property cannot break the claimed checks
    claimed = open("tools/claimed.txt").read().split()
    targets = []
    for pid in claimed:
        M = importlib.import_module(f"harness.props.{pid.lower()}")
        targets += list(M.VO) + [pf[:-2] + ".vo" for pf in M.PROPS_FILES]
    ok, log = core.coq_make(sorted(set(targets)))
    print(log[-3000:])
    ok_all, log_all = core.coq_make(keep_going=True)
    if not ok_all:
        print("NOTE: some files outside the claimed properties do not build yet:")
        print("\n".join(l for l in log_all.splitlines() if "Error" in l or "rror:" in l or l.startswith("File "))[-3000:])
    claimed_fail = {k: v for k, v in fails.items()
                    if any(k in getattr(importlib.import_module(f"harness.props.{p.lower()}"), "TRANSLATORS", [])
                           for p in claimed)}
    sys.exit(0 if ok and not claimed_fail and not bad else 1)
PY
if [ "$1" = "--audit" ]; then
  cd coq && timeout 3600 coqchk -silent -o -Q theories FL -Q props FLProps -Q gen FLGen $(find props -name '*.vo' | sed 's/\.vo$//; s#/#.#g; s#^props#FLProps#') 2>&1 | tail -40
fi
