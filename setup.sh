#!/bin/bash
# setup_cmd: regenerate the source-derived Coq fragments from /repo, then a full .vo build
# (coq_makefile + make; never -vos/-vok).  Offline, files on disk only.
set -e
cd "$(dirname "$0")"
export PYTHONHASHSEED=0 PYTHONDONTWRITEBYTECODE=1
REPO="${VERIF_REPO:-/repo}"
export PYTHONPATH="$REPO:$PWD"
mkdir -p build evidence coq/gen
/venv/bin/python - <<'PY'
import sys
from harness import core
with core.BuildLock():
    fails = core.regen_sources()
    for k, v in fails.items():
        print(f"translator {k} FAILED: {v}")
    bad = core.forbidden_scan() + core.section_scan()
    for b in bad:
        print("forbidden:", b)
    ok, log = core.coq_make()
    print(log[-6000:])
    sys.exit(0 if ok and not fails and not bad else 1)
PY
if [ "$1" = "--audit" ]; then
  cd coq && timeout 3600 coqchk -silent -o -Q theories FL -Q props FLProps -Q gen FLGen $(find props -name '*.vo' | sed 's/\.vo$//; s#/#.#g; s#^props#FLProps#') 2>&1 | tail -40
fi
